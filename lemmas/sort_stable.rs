//@lemma props=C17
// Composition lemma for C17 (std.sort as a whole).  The contracts that Kani discharges on the real step
// functions (units/sortset) are transcribed as ONE recursive machine over the sequence of input positions
// ("tags": element i of the input has tag i; its key is key(i)):
//   * do_std_sort (sort_entry_*):           fewer than two elements: returned as they are
//   * do_std_sort_slice (dispatch, proof):  2..30 elements: quick sort;  more than 30: sort the left half, the
//                                           right half, merge them at mid = len / 2
//   * quick_sort_1 / quick_sort_2 (partition instances): pivot = first element of the range; afterwards the range is
//     [elements with key < pivot key, in their original order] ++ [pivot] ++ [the others, in their original
//     order]; both sides are sorted recursively when they have more than one element
//   * merge_pre / merge_post (merge instances): left head taken when its key <= the right head's key
// Proved here for inputs of EVERY length: the machine's output
//   (a) has the same length and exactly the same elements as the input, each once (a permutation), and
//   (b) is ordered by key, elements with equal keys in input order (stable) - expressed as: strictly increasing in
//       the lexicographic order on (key, input position).
// The element order of the input is the tag order (tags strictly increasing), which every recursive call keeps.
// This file contains no code of /repo and models nothing but the CONTRACT TEXTS; the bounded part of the
// argument is the Kani side (windows of <= 4, runs of <= 3), this lemma removes the bound from the composition.
use vstd::prelude::*;
verus! {

pub uninterp spec fn key(tag: int) -> int;

// (key, tag) lexicographic order: "a must come before b in a stable sort"
pub open spec fn before(a: int, b: int) -> bool { key(a) < key(b) || (key(a) == key(b) && a < b) }
pub open spec fn sorted_kt(s: Seq<int>) -> bool { forall|i: int, j: int| #![auto] 0 <= i < j < s.len() ==> before(s[i], s[j]) }
pub open spec fn increasing(s: Seq<int>) -> bool { forall|i: int, j: int| #![auto] 0 <= i < j < s.len() ==> s[i] < s[j] }

// ---- partition (quick_sort_2 contract): stable split of the non-pivot elements by "key < pivot key" ----------
pub open spec fn part_lt(s: Seq<int>, pk: int) -> Seq<int>
    decreases s.len(),
{
    if s.len() == 0 { Seq::empty() }
    else { let r = part_lt(s.drop_last(), pk); if key(s.last()) < pk { r.push(s.last()) } else { r } }
}
pub open spec fn part_ge(s: Seq<int>, pk: int) -> Seq<int>
    decreases s.len(),
{
    if s.len() == 0 { Seq::empty() }
    else { let r = part_ge(s.drop_last(), pk); if key(s.last()) < pk { r } else { r.push(s.last()) } }
}

proof fn lemma_partition(s: Seq<int>, pk: int)
    requires increasing(s),
    ensures
        part_lt(s, pk).len() + part_ge(s, pk).len() == s.len(),
        increasing(part_lt(s, pk)), increasing(part_ge(s, pk)),
        forall|x: int| #![auto] part_lt(s, pk).contains(x) == (s.contains(x) && key(x) < pk),
        forall|x: int| #![auto] part_ge(s, pk).contains(x) == (s.contains(x) && key(x) >= pk),
        forall|k: int| #![auto] 0 <= k < part_lt(s, pk).len() ==> s.len() > 0 && part_lt(s, pk)[k] <= s.last(),
        forall|k: int| #![auto] 0 <= k < part_ge(s, pk).len() ==> s.len() > 0 && part_ge(s, pk)[k] <= s.last(),
    decreases s.len(),
{
    if s.len() == 0 {
    } else {
        let init = s.drop_last(); let last = s.last();
        assert forall|i: int, j: int| #![auto] 0 <= i < j < init.len() implies init[i] < init[j] by { assert(init[i] == s[i] && init[j] == s[j]); }
        lemma_partition(init, pk);
        let (l0, g0) = (part_lt(init, pk), part_ge(init, pk));
        let (l, g) = (part_lt(s, pk), part_ge(s, pk));
        // everything kept from init is below `last`
        assert forall|k: int| #![auto] 0 <= k < l0.len() implies l0[k] < last by { assert(init.last() == s[s.len() - 2]); assert(s[s.len() - 2] < s[s.len() - 1]); }
        assert forall|k: int| #![auto] 0 <= k < g0.len() implies g0[k] < last by { assert(init.last() == s[s.len() - 2]); assert(s[s.len() - 2] < s[s.len() - 1]); }
        assert forall|i: int, j: int| #![auto] 0 <= i < j < l.len() implies l[i] < l[j] by { if j < l0.len() { assert(l[i] == l0[i] && l[j] == l0[j]); } else { assert(l[i] == l0[i]); } }
        assert forall|i: int, j: int| #![auto] 0 <= i < j < g.len() implies g[i] < g[j] by { if j < g0.len() { assert(g[i] == g0[i] && g[j] == g0[j]); } else { assert(g[i] == g0[i]); } }
        assert forall|x: int| #![auto] l.contains(x) == (s.contains(x) && key(x) < pk) by {
            if s.contains(x) { let i = choose|i: int| 0 <= i < s.len() && s[i] == x; if i < init.len() { assert(init[i] == x); assert(init.contains(x)); } }
            if init.contains(x) { let i = choose|i: int| 0 <= i < init.len() && init[i] == x; assert(s[i] == x); }
            if key(last) < pk {
                if l.contains(x) { let q = choose|q: int| 0 <= q < l.len() && l[q] == x; if q < l0.len() { assert(l0[q] == x); assert(l0.contains(x)); } else { assert(x == last); assert(s[s.len() - 1] == x); } }
                if l0.contains(x) { let q = choose|q: int| 0 <= q < l0.len() && l0[q] == x; assert(l[q] == x); }
                if x == last { assert(l[l0.len() as int] == x); assert(s[s.len() - 1] == x); }
            } else {
                if x == last { assert(s[s.len() - 1] == x); }
            }
        }
        assert forall|x: int| #![auto] g.contains(x) == (s.contains(x) && key(x) >= pk) by {
            if s.contains(x) { let i = choose|i: int| 0 <= i < s.len() && s[i] == x; if i < init.len() { assert(init[i] == x); assert(init.contains(x)); } }
            if init.contains(x) { let i = choose|i: int| 0 <= i < init.len() && init[i] == x; assert(s[i] == x); }
            if !(key(last) < pk) {
                if g.contains(x) { let q = choose|q: int| 0 <= q < g.len() && g[q] == x; if q < g0.len() { assert(g0[q] == x); assert(g0.contains(x)); } else { assert(x == last); assert(s[s.len() - 1] == x); } }
                if g0.contains(x) { let q = choose|q: int| 0 <= q < g0.len() && g0[q] == x; assert(g[q] == x); }
                if x == last { assert(g[g0.len() as int] == x); assert(s[s.len() - 1] == x); }
            } else {
                if x == last { assert(s[s.len() - 1] == x); }
            }
        }
        assert forall|k: int| #![auto] 0 <= k < l.len() implies l[k] <= s.last() by { if k < l0.len() { assert(l[k] == l0[k]); } }
        assert forall|k: int| #![auto] 0 <= k < g.len() implies g[k] <= s.last() by { if k < g0.len() { assert(g[k] == g0[k]); } }
    }
}

// ---- merge (merge_pre / merge_post contracts) on element sequences -------------------------------------------
pub open spec fn merge2(a: Seq<int>, b: Seq<int>) -> Seq<int>
    decreases a.len() + b.len(),
{
    if a.len() == 0 { b }
    else if b.len() == 0 { a }
    else if key(a[0]) <= key(b[0]) { seq![a[0]] + merge2(a.subrange(1, a.len() as int), b) }
    else { seq![b[0]] + merge2(a, b.subrange(1, b.len() as int)) }
}

proof fn lemma_cons_contains(h: int, t: Seq<int>, x: int)
    ensures (seq![h] + t).contains(x) == (h == x || t.contains(x)),
{
    let o = seq![h] + t;
    if o.contains(x) { let q = choose|q: int| 0 <= q < o.len() && o[q] == x; if q > 0 { assert(t[q - 1] == x); } }
    if h == x { assert(o[0] == x); }
    if t.contains(x) { let q = choose|q: int| 0 <= q < t.len() && t[q] == x; assert(o[q + 1] == x); }
}
proof fn lemma_tail_contains(s: Seq<int>, x: int)
    requires s.len() > 0,
    ensures s.contains(x) == (s[0] == x || s.subrange(1, s.len() as int).contains(x)),
{
    let t = s.subrange(1, s.len() as int);
    if s.contains(x) { let q = choose|q: int| 0 <= q < s.len() && s[q] == x; if q > 0 { assert(t[q - 1] == x); } }
    if t.contains(x) { let q = choose|q: int| 0 <= q < t.len() && t[q] == x; assert(s[q + 1] == x); }
    if s[0] == x { assert(s.contains(x)); }
}

proof fn lemma_merge2(a: Seq<int>, b: Seq<int>)
    requires sorted_kt(a), sorted_kt(b), forall|i: int, j: int| #![auto] 0 <= i < a.len() && 0 <= j < b.len() ==> a[i] < b[j],
    ensures
        merge2(a, b).len() == a.len() + b.len(),
        forall|x: int| #![auto] merge2(a, b).contains(x) == (a.contains(x) || b.contains(x)),
        sorted_kt(merge2(a, b)),
    decreases a.len() + b.len(),
{
    let out = merge2(a, b);
    if a.len() == 0 {
        assert forall|x: int| #![auto] out.contains(x) == (a.contains(x) || b.contains(x)) by { }
    } else if b.len() == 0 {
        assert forall|x: int| #![auto] out.contains(x) == (a.contains(x) || b.contains(x)) by { }
    } else if key(a[0]) <= key(b[0]) {
        let at = a.subrange(1, a.len() as int);
        assert forall|i: int, j: int| #![auto] 0 <= i < j < at.len() implies before(at[i], at[j]) by { assert(at[i] == a[i + 1] && at[j] == a[j + 1]); }
        assert forall|i: int, j: int| #![auto] 0 <= i < at.len() && 0 <= j < b.len() implies at[i] < b[j] by { assert(at[i] == a[i + 1]); }
        lemma_merge2(at, b);
        let t = merge2(at, b);
        assert forall|x: int| #![auto] out.contains(x) == (a.contains(x) || b.contains(x)) by { lemma_cons_contains(a[0], t, x); lemma_tail_contains(a, x); }
        // a[0] comes before everything in t
        assert forall|i: int, j: int| #![auto] 0 <= i < j < out.len() implies before(out[i], out[j]) by {
            if i == 0 {
                let y = t[j - 1]; assert(out[j] == y); assert(t.contains(y));
                if at.contains(y) { let q = choose|q: int| 0 <= q < at.len() && at[q] == y; assert(a[q + 1] == y); assert(before(a[0], a[q + 1])); }
                else { let q = choose|q: int| 0 <= q < b.len() && b[q] == y; assert(a[0] < b[q]); if q > 0 { assert(before(b[0], b[q])); } }
            } else { assert(out[i] == t[i - 1] && out[j] == t[j - 1]); }
        }
    } else {
        let bt = b.subrange(1, b.len() as int);
        assert forall|i: int, j: int| #![auto] 0 <= i < j < bt.len() implies before(bt[i], bt[j]) by { assert(bt[i] == b[i + 1] && bt[j] == b[j + 1]); }
        assert forall|i: int, j: int| #![auto] 0 <= i < a.len() && 0 <= j < bt.len() implies a[i] < bt[j] by { assert(bt[j] == b[j + 1]); }
        lemma_merge2(a, bt);
        let t = merge2(a, bt);
        assert forall|x: int| #![auto] out.contains(x) == (a.contains(x) || b.contains(x)) by { lemma_cons_contains(b[0], t, x); lemma_tail_contains(b, x); }
        assert forall|i: int, j: int| #![auto] 0 <= i < j < out.len() implies before(out[i], out[j]) by {
            if i == 0 {
                let y = t[j - 1]; assert(out[j] == y); assert(t.contains(y));
                if bt.contains(y) { let q = choose|q: int| 0 <= q < bt.len() && bt[q] == y; assert(b[q + 1] == y); assert(before(b[0], b[q + 1])); }
                else { let q = choose|q: int| 0 <= q < a.len() && a[q] == y; assert(key(b[0]) < key(a[0])); if q > 0 { assert(before(a[0], a[q])); } }
            } else { assert(out[i] == t[i - 1] && out[j] == t[j - 1]); }
        }
    }
}

// ---- the whole sort (sort entry + dispatch + quick sort + merge sort) ------------------------------------------
pub open spec fn sort_m(s: Seq<int>) -> Seq<int>
    decreases s.len(),
{
    if s.len() <= 1 { s }
    else if s.len() <= 30 {
        let p = s[0]; let rest = s.subrange(1, s.len() as int);
        if part_lt(rest, key(p)).len() < s.len() && part_ge(rest, key(p)).len() < s.len() {
            sort_m(part_lt(rest, key(p))) + seq![p] + sort_m(part_ge(rest, key(p)))
        } else { s }   // unreachable (lemma_partition): both parts are shorter than the range
    } else {
        let mid = s.len() as int / 2;
        merge2(sort_m(s.subrange(0, mid)), sort_m(s.subrange(mid, s.len() as int)))
    }
}

// the quick-sort case, given the two recursively sorted sides (kept separate to keep each SMT query small)
proof fn lemma_quick_case(s: Seq<int>, sl: Seq<int>, sg: Seq<int>)
    requires
        increasing(s), s.len() >= 2,
        sl.len() == part_lt(s.subrange(1, s.len() as int), key(s[0])).len(),
        forall|x: int| #![trigger sl.contains(x)] sl.contains(x) == part_lt(s.subrange(1, s.len() as int), key(s[0])).contains(x),
        sorted_kt(sl),
        sg.len() == part_ge(s.subrange(1, s.len() as int), key(s[0])).len(),
        forall|x: int| #![trigger sg.contains(x)] sg.contains(x) == part_ge(s.subrange(1, s.len() as int), key(s[0])).contains(x),
        sorted_kt(sg),
    ensures
        (sl + seq![s[0]] + sg).len() == s.len(),
        forall|x: int| #![trigger (sl + seq![s[0]] + sg).contains(x)] (sl + seq![s[0]] + sg).contains(x) == s.contains(x),
        sorted_kt(sl + seq![s[0]] + sg),
{
    let p = s[0]; let rest = s.subrange(1, s.len() as int); let pk = key(p);
    let out = sl + seq![p] + sg;
    assert forall|i: int, j: int| #![auto] 0 <= i < j < rest.len() implies rest[i] < rest[j] by { assert(rest[i] == s[i + 1] && rest[j] == s[j + 1]); }
    lemma_partition(rest, pk);
    let (l, g) = (part_lt(rest, pk), part_ge(rest, pk));
    // membership facts, instantiated by hand
    assert forall|x: int| sl.contains(x) implies rest.contains(x) && key(x) < pk by { assert(l.contains(x)); assert(l.contains(x) == (rest.contains(x) && key(x) < pk)); }
    assert forall|x: int| sg.contains(x) implies rest.contains(x) && key(x) >= pk by { assert(g.contains(x)); assert(g.contains(x) == (rest.contains(x) && key(x) >= pk)); }
    assert forall|x: int| #![trigger out.contains(x)] out.contains(x) == s.contains(x) by {
        lemma_tail_contains(s, x);
        if out.contains(x) {
            let q = choose|q: int| 0 <= q < out.len() && out[q] == x;
            if q < sl.len() { assert(sl[q] == x); assert(sl.contains(x)); }
            else if q == sl.len() { assert(x == p); }
            else { assert(sg[q - sl.len() - 1] == x); assert(sg.contains(x)); }
        }
        if rest.contains(x) {
            assert(l.contains(x) == (rest.contains(x) && key(x) < pk)); assert(g.contains(x) == (rest.contains(x) && key(x) >= pk));
            if key(x) < pk { assert(sl.contains(x)); let q = choose|q: int| 0 <= q < sl.len() && sl[q] == x; assert(out[q] == x); }
            else { assert(sg.contains(x)); let q = choose|q: int| 0 <= q < sg.len() && sg[q] == x; assert(out[sl.len() + 1 + q] == x); }
        }
        if x == p { assert(out[sl.len() as int] == x); }
    }
    assert forall|i: int, j: int| #![auto] 0 <= i < j < out.len() implies before(out[i], out[j]) by {
        let a = out[i]; let b = out[j];
        if j < sl.len() { assert(sl[i] == a && sl[j] == b); }
        else if i < sl.len() {
            assert(sl[i] == a); assert(sl.contains(a)); assert(key(a) < pk);
            if j == sl.len() { assert(b == p); }
            else { assert(sg[j - sl.len() - 1] == b); assert(sg.contains(b)); assert(key(b) >= pk); }
        } else if i == sl.len() {
            assert(a == p);
            assert(sg[j - sl.len() - 1] == b); assert(sg.contains(b)); assert(key(b) >= pk && rest.contains(b));
            let q = choose|q: int| 0 <= q < rest.len() && rest[q] == b; assert(s[q + 1] == b); assert(s[0] < s[q + 1]);
        } else { assert(sg[i - sl.len() - 1] == a && sg[j - sl.len() - 1] == b); }
    }
}

// the merge-sort case, given the two recursively sorted halves
proof fn lemma_merge_case(s: Seq<int>, sa: Seq<int>, sb: Seq<int>)
    requires
        increasing(s), s.len() >= 2,
        sa.len() == s.len() as int / 2, sb.len() == s.len() - s.len() as int / 2,
        forall|x: int| #![trigger sa.contains(x)] sa.contains(x) == s.subrange(0, s.len() as int / 2).contains(x),
        forall|x: int| #![trigger sb.contains(x)] sb.contains(x) == s.subrange(s.len() as int / 2, s.len() as int).contains(x),
        sorted_kt(sa), sorted_kt(sb),
    ensures
        merge2(sa, sb).len() == s.len(),
        forall|x: int| #![trigger merge2(sa, sb).contains(x)] merge2(sa, sb).contains(x) == s.contains(x),
        sorted_kt(merge2(sa, sb)),
{
    let mid = s.len() as int / 2;
    let (a, b) = (s.subrange(0, mid), s.subrange(mid, s.len() as int));
    assert forall|i: int, j: int| #![auto] 0 <= i < sa.len() && 0 <= j < sb.len() implies sa[i] < sb[j] by {
        assert(sa.contains(sa[i])); assert(sb.contains(sb[j])); assert(a.contains(sa[i])); assert(b.contains(sb[j]));
        let u = choose|u: int| 0 <= u < a.len() && a[u] == sa[i]; let v = choose|v: int| 0 <= v < b.len() && b[v] == sb[j];
        assert(s[u] == sa[i] && s[mid + v] == sb[j]); assert(s[u] < s[mid + v]);
    }
    lemma_merge2(sa, sb);
    let out = merge2(sa, sb);
    assert forall|x: int| #![trigger out.contains(x)] out.contains(x) == s.contains(x) by {
        assert(out.contains(x) == (sa.contains(x) || sb.contains(x)));
        if s.contains(x) { let q = choose|q: int| 0 <= q < s.len() && s[q] == x; if q < mid { assert(a[q] == x); assert(a.contains(x)); } else { assert(b[q - mid] == x); assert(b.contains(x)); } }
        if a.contains(x) { let q = choose|q: int| 0 <= q < a.len() && a[q] == x; assert(s[q] == x); }
        if b.contains(x) { let q = choose|q: int| 0 <= q < b.len() && b[q] == x; assert(s[mid + q] == x); }
    }
}

pub proof fn lemma_sort_is_a_stable_sorting_permutation(s: Seq<int>)
    requires increasing(s),
    ensures
        sort_m(s).len() == s.len(),
        forall|x: int| #![trigger sort_m(s).contains(x)] sort_m(s).contains(x) == s.contains(x),
        sorted_kt(sort_m(s)),
    decreases s.len(),
{
    if s.len() <= 1 {
    } else if s.len() <= 30 {
        let p = s[0]; let rest = s.subrange(1, s.len() as int); let pk = key(p);
        assert forall|i: int, j: int| #![auto] 0 <= i < j < rest.len() implies rest[i] < rest[j] by { assert(rest[i] == s[i + 1] && rest[j] == s[j + 1]); }
        lemma_partition(rest, pk);
        let (l, g) = (part_lt(rest, pk), part_ge(rest, pk));
        lemma_sort_is_a_stable_sorting_permutation(l);
        lemma_sort_is_a_stable_sorting_permutation(g);
        lemma_quick_case(s, sort_m(l), sort_m(g));
        assert(sort_m(s) =~= sort_m(l) + seq![p] + sort_m(g));
    } else {
        let mid = s.len() as int / 2;
        let (a, b) = (s.subrange(0, mid), s.subrange(mid, s.len() as int));
        assert forall|i: int, j: int| #![auto] 0 <= i < j < a.len() implies a[i] < a[j] by { assert(a[i] == s[i] && a[j] == s[j]); }
        assert forall|i: int, j: int| #![auto] 0 <= i < j < b.len() implies b[i] < b[j] by { assert(b[i] == s[mid + i] && b[j] == s[mid + j]); }
        lemma_sort_is_a_stable_sorting_permutation(a);
        lemma_sort_is_a_stable_sorting_permutation(b);
        lemma_merge_case(s, sort_m(a), sort_m(b));
    }
}

// the statement in the property's words: for the input positions 0..n in order, the output is a permutation
// ordered by key in which elements with equal keys keep their input order
pub open spec fn iota(n: nat) -> Seq<int> { Seq::new(n, |i: int| i) }
pub open spec fn std_sort(n: nat) -> Seq<int> { sort_m(iota(n)) }
pub proof fn lemma_std_sort_contract(n: nat)
    ensures
        std_sort(n).len() == n,
        forall|x: int| (0 <= x < n) == #[trigger] std_sort(n).contains(x),
        forall|i: int, j: int| 0 <= i < j < n ==> key(#[trigger] std_sort(n)[i]) <= key(#[trigger] std_sort(n)[j]),
        forall|i: int, j: int| 0 <= i < j < n && key(#[trigger] std_sort(n)[i]) == key(#[trigger] std_sort(n)[j]) ==> std_sort(n)[i] < std_sort(n)[j],
{
    let s = iota(n);
    lemma_sort_is_a_stable_sorting_permutation(s);
    let out = sort_m(s);
    assert forall|x: int| (0 <= x < n) == #[trigger] out.contains(x) by {
        if 0 <= x < n { assert(s[x] == x); assert(s.contains(x)); }
        if s.contains(x) { let q = choose|q: int| 0 <= q < s.len() && s[q] == x; }
    }
    assert forall|i: int, j: int| 0 <= i < j < n implies key(#[trigger] out[i]) <= key(#[trigger] out[j]) by { assert(before(out[i], out[j])); }
    assert forall|i: int, j: int| 0 <= i < j < n && key(#[trigger] out[i]) == key(#[trigger] out[j]) implies out[i] < out[j] by { assert(before(out[i], out[j])); }
}

} // verus!
fn main() {}
