//@lemma props=C14
// Composition lemma for C14 (token spans tile the input).  Hypotheses = the contracts of the lexer's position
// primitives (unit lexprim, Kani) and the frame obligation F-lexpos (syntactic, real sources):
//   (P) every primitive keeps  start_pos <= end_pos <= len  and only moves end_pos forward, except lex_operator,
//       which moves it back to a position >= start_pos + 1 that it had already passed;
//   (C) commit_token is the only constructor of a Token and the only writer of start_pos: the token's span is
//       (start_pos, end_pos) and afterwards start_pos == end_pos;
//   (B) next_token begins with eat_any_byte: at p == len it commits the end-of-file token (the only place that
//       token is produced), otherwise it has consumed one byte, so whatever token it commits has end > start.
// From (P), (C), (B) one call of next_token from a state start_pos == end_pos == p <= len that returns a token
// satisfies  STEP(p, tok, p'):  tok.start == p,  tok.end == p' <= len,  tok is EOF <=> p == len,  p < len => p' > p.
// Proved here, for token streams of EVERY length: a stream produced by iterating STEP from 0 until the
// end-of-file token tiles [0, len): spans are adjacent, non-empty, in order, every offset below len lies in
// exactly one token, the last token is the empty end-of-file token at len; and dropping tokens by kind
// (whitespace, comments) leaves the spans of the remaining tokens unchanged and in order.
// That a call of next_token actually RETURNS through commit_token exactly once on its Ok paths is visible in the
// source (every Ok value is built by commit_token - F-lexpos - and a Token cannot be kept across calls: the
// lexer stores none); it is a hypothesis here, not proved.  This file contains no code of /repo.
use vstd::prelude::*;
verus! {

pub struct Tok { pub start: int, pub end: int, pub eof: bool, pub trivia: bool }

// the step contract of one next_token call from position p
pub open spec fn step(len: int, p: int, t: Tok) -> bool {
    t.start == p && t.end <= len && (t.eof == (p == len)) && (p < len ==> t.end > p) && (p == len ==> t.end == p)
}

// a stream produced by calling next_token repeatedly from `from` until the end-of-file token
pub open spec fn stream_from(len: int, from: int, ts: Seq<Tok>) -> bool
    decreases ts.len(),
{
    if ts.len() == 0 { false }
    else if ts.len() == 1 { step(len, from, ts[0]) && ts[0].eof }
    else { step(len, from, ts[0]) && !ts[0].eof && stream_from(len, ts[0].end, ts.subrange(1, ts.len() as int)) }
}

proof fn lemma_stream_props(len: int, from: int, ts: Seq<Tok>)
    requires 0 <= from <= len, stream_from(len, from, ts),
    ensures
        ts.len() >= 1,
        ts[0].start == from,
        ts[ts.len() - 1].eof && ts[ts.len() - 1].start == len && ts[ts.len() - 1].end == len,
        forall|i: int| 0 <= i < ts.len() - 1 ==> #[trigger] ts[i].end == ts[i + 1].start,           // adjacent
        forall|i: int| 0 <= i < ts.len() - 1 ==> #[trigger] ts[i].start < ts[i].end && !ts[i].eof,   // non-empty, not EOF
        forall|i: int| 0 <= i < ts.len() ==> from <= #[trigger] ts[i].start && ts[i].end <= len,      // inside the input
    decreases ts.len(),
{
    if ts.len() == 1 {
    } else {
        let rest = ts.subrange(1, ts.len() as int);
        lemma_stream_props(len, ts[0].end, rest);
        assert(ts[0].start < ts[0].end);
        assert forall|i: int| 0 <= i < ts.len() - 1 implies #[trigger] ts[i].end == ts[i + 1].start by {
            if i == 0 { assert(rest[0] == ts[1]); } else { assert(rest[i - 1] == ts[i] && rest[i] == ts[i + 1]); }
        }
        assert forall|i: int| 0 <= i < ts.len() - 1 implies #[trigger] ts[i].start < ts[i].end && !ts[i].eof by {
            if i > 0 { assert(rest[i - 1] == ts[i]); }
        }
        assert forall|i: int| 0 <= i < ts.len() implies from <= #[trigger] ts[i].start && ts[i].end <= len by {
            if i > 0 { assert(rest[i - 1] == ts[i]); }
        }
        assert(rest[rest.len() - 1] == ts[ts.len() - 1]);
    }
}

// every offset below len lies in exactly one token
pub open spec fn covers(t: Tok, x: int) -> bool { t.start <= x < t.end }
pub open spec fn covered(ts: Seq<Tok>, x: int) -> bool { exists|i: int| 0 <= i < ts.len() && #[trigger] covers(ts[i], x) }

proof fn lemma_some_token_covers(len: int, from: int, ts: Seq<Tok>, x: int)
    requires 0 <= from <= x < len, stream_from(len, from, ts),
    ensures exists|i: int| 0 <= i < ts.len() && #[trigger] covers(ts[i], x),
    decreases ts.len(),
{
    if ts.len() == 1 {
        // the only token is EOF, so from == len: contradiction with from <= x < len
        assert(ts[0].eof);
    } else if x < ts[0].end {
        assert(covers(ts[0], x));
    } else {
        let rest = ts.subrange(1, ts.len() as int);
        lemma_some_token_covers(len, ts[0].end, rest, x);
        let j = choose|j: int| 0 <= j < rest.len() && #[trigger] covers(rest[j], x);
        assert(rest[j] == ts[j + 1]);
        assert(covers(ts[j + 1], x));
    }
}

proof fn lemma_starts_increase(len: int, from: int, ts: Seq<Tok>, i: int, j: int)
    requires 0 <= from <= len, stream_from(len, from, ts), 0 <= i < j < ts.len(),
    ensures ts[i].end <= ts[j].start,
    decreases j - i,
{
    lemma_stream_props(len, from, ts);
    if j == i + 1 { } else { lemma_starts_increase(len, from, ts, i, j - 1); assert(ts[j - 1].end == ts[j].start); assert(ts[j - 1].start <= ts[j - 1].end) by { if j - 1 < ts.len() - 1 { } } }
}

// ---- the statements used by C14 ---------------------------------------------------------------------------
pub proof fn lemma_tokens_tile_the_input(len: int, ts: Seq<Tok>)
    requires 0 <= len, stream_from(len, 0, ts),
    ensures
        ts[0].start == 0,
        ts[ts.len() - 1].eof && ts[ts.len() - 1].start == len && ts[ts.len() - 1].end == len,
        forall|i: int| 0 <= i < ts.len() - 1 ==> #[trigger] ts[i].end == ts[i + 1].start,
        forall|x: int| 0 <= x < len ==> #[trigger] covered(ts, x),
        forall|x: int, i: int, j: int| 0 <= i < j < ts.len() && #[trigger] covers(ts[i], x) ==> !#[trigger] covers(ts[j], x),
{
    lemma_stream_props(len, 0, ts);
    assert forall|x: int| 0 <= x < len implies #[trigger] covered(ts, x) by {
        lemma_some_token_covers(len, 0, ts, x);
    }
    assert forall|x: int, i: int, j: int| 0 <= i < j < ts.len() && #[trigger] covers(ts[i], x) implies !#[trigger] covers(ts[j], x) by {
        lemma_starts_increase(len, 0, ts, i, j);
    }
}

// dropping trivia (whitespace / comments), as lex_to_eof(false) does: a token is pushed unless it is trivia
pub open spec fn keep(ts: Seq<Tok>) -> Seq<Tok>
    decreases ts.len(),
{
    if ts.len() == 0 { Seq::empty() }
    else { let r = keep(ts.drop_last()); if !ts.last().trivia { r.push(ts.last()) } else { r } }
}
pub open spec fn starts_increase(ts: Seq<Tok>) -> bool { forall|i: int, j: int| #![auto] 0 <= i < j < ts.len() ==> ts[i].start < ts[j].start }

// the kept tokens are exactly the non-trivia tokens, unchanged (same spans), in the same order
pub proof fn lemma_dropping_trivia_keeps_the_rest(ts: Seq<Tok>)
    requires starts_increase(ts),
    ensures
        forall|t: Tok| #![auto] keep(ts).contains(t) == (ts.contains(t) && !t.trivia),
        starts_increase(keep(ts)),
        keep(ts).len() <= ts.len(),
        forall|k: int| #![auto] 0 <= k < keep(ts).len() ==> ts.len() > 0 && keep(ts)[k].start <= ts.last().start,
    decreases ts.len(),
{
    if ts.len() == 0 {
    } else {
        let init = ts.drop_last();
        let last = ts.last();
        assert forall|i: int, j: int| #![auto] 0 <= i < j < init.len() implies init[i].start < init[j].start by { assert(init[i] == ts[i] && init[j] == ts[j]); }
        lemma_dropping_trivia_keeps_the_rest(init);
        let r = keep(init);
        let out = keep(ts);
        assert forall|t: Tok| #![auto] out.contains(t) == (ts.contains(t) && !t.trivia) by {
            if ts.contains(t) {
                let i = choose|i: int| 0 <= i < ts.len() && ts[i] == t;
                if i < init.len() { assert(init[i] == t); assert(init.contains(t)); }
            }
            if init.contains(t) { let i = choose|i: int| 0 <= i < init.len() && init[i] == t; assert(ts[i] == t); }
            if !last.trivia {
                if out.contains(t) { let q = choose|q: int| 0 <= q < out.len() && out[q] == t; if q < r.len() { assert(r[q] == t); assert(r.contains(t)); } else { assert(t == last); assert(ts[ts.len() - 1] == t); } }
                if r.contains(t) { let q = choose|q: int| 0 <= q < r.len() && r[q] == t; assert(out[q] == t); }
                if t == last { assert(out[r.len() as int] == t); assert(ts[ts.len() - 1] == t); }
            }
        }
        // order: everything kept from `init` starts before `last`
        assert forall|k: int| #![auto] 0 <= k < r.len() implies r[k].start < last.start by {
            assert(init.len() > 0);
            assert(init.last() == ts[ts.len() - 2]);
            assert(ts[ts.len() - 2].start < ts[ts.len() - 1].start);
        }
        assert forall|i: int, j: int| #![auto] 0 <= i < j < out.len() implies out[i].start < out[j].start by {
            if j < r.len() { assert(out[i] == r[i] && out[j] == r[j]); } else { assert(out[i] == r[i]); }
        }
        assert forall|k: int| #![auto] 0 <= k < out.len() implies out[k].start <= last.start by {
            if k < r.len() { assert(out[k] == r[k]); }
        }
    }
}

// guard against a vacuous hypothesis: a concrete two-token stream satisfies it, a stream with a gap does not
pub proof fn lemma_hypothesis_is_satisfiable_and_discriminating()
    ensures
        stream_from(3, 0, seq![Tok { start: 0, end: 3, eof: false, trivia: false }, Tok { start: 3, end: 3, eof: true, trivia: false }]),
        !stream_from(3, 0, seq![Tok { start: 0, end: 2, eof: false, trivia: false }, Tok { start: 3, end: 3, eof: true, trivia: false }]),
{
    let a = Tok { start: 0, end: 3, eof: false, trivia: false };
    let z = Tok { start: 3, end: 3, eof: true, trivia: false };
    let ts = seq![a, z];
    assert(ts.subrange(1, 2) =~= seq![z]);
    assert(stream_from(3, 3, seq![z]));
    let g = Tok { start: 0, end: 2, eof: false, trivia: false };
    let bad = seq![g, z];
    assert(bad.subrange(1, 2) =~= seq![z]);
    assert(!step(3, 2, z));
    assert(!stream_from(3, 2, seq![z]));
}

} // verus!
fn main() {}
