//@lemma props=C10
// Composition lemma for C10 (the frame counter).  Hypotheses = what unit evalcore (Kani) and frame obligation
// F-tracelen establish about the real code:
//   (S) every evaluator step changes the pair (counter, state stack) only through the four accounting primitives -
//       push a TraceItem (+1 / +1), push a DelayedTraceItem (-1 / -1), pop a TraceItem (-1 / -1), pop a
//       DelayedTraceItem (+1 / +1) - or through pushes / pops of other states, which have weight 0
//       (F-tracelen: nothing else writes the counter or pushes those two states);
//   (L) after every step the run stops with StackOverflow exactly when counter > limit (limit_test_contract).
// A run is abstracted to the sequence of stack items it pushes and pops; the weight of an item is +1 (TraceItem),
// -1 (DelayedTraceItem) or 0.  Proved here for runs of EVERY length:
//   * invariant T: counter == sum of the weights on the stack, after any sequence of steps that starts from the empty
//     stack with counter 0 (so on normal completion - empty stack - the counter is 0 and the evaluator's final
//     `assert_eq!(stack_trace_len, 0)` cannot fire);
//   * monotonicity of the limit: the verdicts of the limit test along a run under limit s and under any s' >= s agree up
//     to the first overflow under s'; in particular a run that never overflows under s never overflows under s'
//     ("raising the limit never changes the outcome of a program that already succeeded").
// This file contains no code of /repo and models nothing but the CONTRACT TEXTS.
use vstd::prelude::*;
verus! {

// a step: push an item of weight w (w in {-1, 0, 1}) or pop the top item
pub enum Step { Push(int), Pop }

pub open spec fn wsum(stack: Seq<int>) -> int
    decreases stack.len(),
{
    if stack.len() == 0 { 0 } else { wsum(stack.drop_last()) + stack.last() }
}

// the machine of (S): state = (stack of weights, counter)
pub open spec fn apply(stack: Seq<int>, counter: int, st: Step) -> (Seq<int>, int) {
    match st {
        Step::Push(w) => (stack.push(w), counter + w),                       // push_trace_item / delay_trace_item / other pushes
        Step::Pop => if stack.len() == 0 { (stack, counter) } else { (stack.drop_last(), counter - stack.last()) },   // the TraceItem / DelayedTraceItem arms / other pops
    }
}
pub open spec fn run(steps: Seq<Step>) -> (Seq<int>, int)
    decreases steps.len(),
{
    if steps.len() == 0 { (Seq::empty(), 0) } else { let (s, c) = run(steps.drop_last()); apply(s, c, steps.last()) }
}

pub proof fn lemma_invariant_t(steps: Seq<Step>)
    ensures run(steps).1 == wsum(run(steps).0),
    decreases steps.len(),
{
    if steps.len() == 0 {
    } else {
        lemma_invariant_t(steps.drop_last());
        let (s, c) = run(steps.drop_last());
        match steps.last() {
            Step::Push(w) => { assert(s.push(w).drop_last() =~= s); }
            Step::Pop => { }
        }
    }
}

pub proof fn lemma_counter_is_zero_on_completion(steps: Seq<Step>)
    requires run(steps).0.len() == 0,
    ensures run(steps).1 == 0,
{
    lemma_invariant_t(steps);
}

// (L): the limit test after each prefix of the run
pub open spec fn overflows_within(steps: Seq<Step>, limit: int, n: int) -> bool {
    exists|k: int| 0 <= k <= n && k <= steps.len() && #[trigger] run(steps.subrange(0, k)).1 > limit
}

pub proof fn lemma_raising_the_limit_never_adds_an_overflow(steps: Seq<Step>, s: int, s2: int)
    requires s2 >= s, !overflows_within(steps, s, steps.len() as int),
    ensures !overflows_within(steps, s2, steps.len() as int),
{
    if overflows_within(steps, s2, steps.len() as int) {
        let k = choose|k: int| 0 <= k <= steps.len() && k <= steps.len() && #[trigger] run(steps.subrange(0, k)).1 > s2;
        assert(run(steps.subrange(0, k)).1 > s);
        assert(overflows_within(steps, s, steps.len() as int));
    }
}

// the first overflow under the larger limit, if any, is also an overflow under the smaller one (runs agree until then)
pub proof fn lemma_overflow_under_larger_limit_implies_under_smaller(steps: Seq<Step>, s: int, s2: int, n: int)
    requires s2 >= s, overflows_within(steps, s2, n),
    ensures overflows_within(steps, s, n),
{
    let k = choose|k: int| 0 <= k <= n && k <= steps.len() && #[trigger] run(steps.subrange(0, k)).1 > s2;
    assert(run(steps.subrange(0, k)).1 > s);
}

} // verus!
fn main() {}
