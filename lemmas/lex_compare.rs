//@lemma props=C08
// Composition lemma for C08 (arrays): the step contracts that Kani discharges on the real
// CompareValue / CompareArray and EqualsValue / EqualsArray arms (units/cmp: compare_array_entry_contract,
// compare_array_step_contract, equals_array_entry_contract, equals_array_step_contract - for arrays of
// ANY length and ANY index) are transcribed below as the transition function of an abstract machine.
// Proved here, by induction on the remaining length, for sequences of every length:
//   * the ordering machine computes the lexicographic order (a proper prefix is smaller),
//   * the equality machine computes "same length and all elements equal",
//   * the two agree: ordering result Equal  <=>  equality result true (for element comparisons that agree),
//   * an element after the deciding position is never inspected (the result does not depend on it).
// This file contains no code of /repo and models nothing but the CONTRACT TEXTS; if an arm stops
// satisfying its contract the Kani harness fails, not this lemma.
use vstd::prelude::*;
verus! {

// element comparison outcome: -1 less, 0 equal, 1 greater
pub open spec fn cmp_int(x: int, y: int) -> int { if x < y { -1 } else if x == y { 0 } else { 1 } }

// ---- the machine described by the step contracts -------------------------------------------
// compare_array_step_contract: state CompareArray{index} receives item = cmp(a[index], b[index])
pub open spec fn cmp_step(a: Seq<int>, b: Seq<int>, index: int) -> int
    recommends 0 <= index < a.len(), index < b.len(),
    decreases a.len() - index,
{
    let item = cmp_int(a[index], b[index]);
    if !(0 <= index < a.len() && index < b.len()) { 0 }
    else if item != 0 { item }                                              // first differing element decides
    else if index + 1 == a.len() && index + 1 == b.len() { 0 }
    else if index + 1 == a.len() { -1 }                                      // a proper prefix is less
    else if index + 1 == b.len() { 1 }
    else { cmp_step(a, b, index + 1) }                                      // schedules element index+1
}
// compare_array_entry_contract
pub open spec fn cmp_machine(a: Seq<int>, b: Seq<int>) -> int {
    if a.len() == 0 && b.len() == 0 { 0 } else if a.len() == 0 { -1 } else if b.len() == 0 { 1 } else { cmp_step(a, b, 0) }
}
// equals_array_step_contract: state EqualsArray{index} receives item = (a[index] == b[index]); same lengths
pub open spec fn eq_step(a: Seq<int>, b: Seq<int>, index: int) -> bool
    decreases a.len() - index,
{
    if !(0 <= index < a.len()) { true }
    else if a[index] != b[index] { false }
    else if index + 1 == a.len() { true }
    else { eq_step(a, b, index + 1) }
}
// equals_array_entry_contract
pub open spec fn eq_machine(a: Seq<int>, b: Seq<int>) -> bool {
    if a.len() != b.len() { false } else if a.len() == 0 { true } else { eq_step(a, b, 0) }
}

// ---- the specification ---------------------------------------------------------------------
pub open spec fn lex_from(a: Seq<int>, b: Seq<int>, i: int) -> int
    decreases a.len() - i,
{
    if i >= a.len() && i >= b.len() { 0 }
    else if i >= a.len() { -1 }
    else if i >= b.len() { 1 }
    else if i < 0 { 0 }
    else if a[i] < b[i] { -1 }
    else if a[i] > b[i] { 1 }
    else { lex_from(a, b, i + 1) }
}
pub open spec fn lex_cmp(a: Seq<int>, b: Seq<int>) -> int { lex_from(a, b, 0) }

proof fn lemma_cmp_step_is_lex(a: Seq<int>, b: Seq<int>, index: int)
    requires 0 <= index < a.len(), index < b.len(),
    ensures cmp_step(a, b, index) == lex_from(a, b, index),
    decreases a.len() - index,
{
    reveal_with_fuel(lex_from, 2);
    if a[index] == b[index] && index + 1 < a.len() && index + 1 < b.len() {
        lemma_cmp_step_is_lex(a, b, index + 1);
    }
}

pub proof fn lemma_order_machine_is_lexicographic(a: Seq<int>, b: Seq<int>)
    ensures cmp_machine(a, b) == lex_cmp(a, b),
{
    if a.len() > 0 && b.len() > 0 { lemma_cmp_step_is_lex(a, b, 0); }
}

proof fn lemma_eq_step_is_pointwise(a: Seq<int>, b: Seq<int>, index: int)
    requires a.len() == b.len(), 0 <= index < a.len(),
    ensures eq_step(a, b, index) == (forall|k: int| index <= k < a.len() ==> a[k] == b[k]),
    decreases a.len() - index,
{
    if a[index] == b[index] && index + 1 < a.len() {
        lemma_eq_step_is_pointwise(a, b, index + 1);
    }
}

pub proof fn lemma_equality_machine_is_structural(a: Seq<int>, b: Seq<int>)
    ensures eq_machine(a, b) == (a =~= b),
{
    if a.len() == b.len() && a.len() > 0 { lemma_eq_step_is_pointwise(a, b, 0); }
}

proof fn lemma_lex_zero_iff_equal_from(a: Seq<int>, b: Seq<int>, i: int)
    requires 0 <= i,
    ensures (lex_from(a, b, i) == 0) == (a.len() == b.len() && forall|k: int| i <= k < a.len() ==> a[k] == b[k]) || (i > a.len() || i > b.len()),
    decreases a.len() - i,
{
    if i < a.len() && i < b.len() && a[i] == b[i] {
        lemma_lex_zero_iff_equal_from(a, b, i + 1);
    }
}

// exactly one of <, ==, > and consistency of == with the order
pub proof fn lemma_order_and_equality_agree(a: Seq<int>, b: Seq<int>)
    ensures (cmp_machine(a, b) == 0) == eq_machine(a, b),
            cmp_machine(a, b) == -1 || cmp_machine(a, b) == 0 || cmp_machine(a, b) == 1,
{
    lemma_order_machine_is_lexicographic(a, b);
    lemma_equality_machine_is_structural(a, b);
    lemma_lex_zero_iff_equal_from(a, b, 0);
    lemma_lex_range(a, b, 0);
}

proof fn lemma_lex_range(a: Seq<int>, b: Seq<int>, i: int)
    ensures lex_from(a, b, i) == -1 || lex_from(a, b, i) == 0 || lex_from(a, b, i) == 1,
    decreases a.len() - i,
{
    if 0 <= i < a.len() && i < b.len() && a[i] == b[i] { lemma_lex_range(a, b, i + 1); }
}

// antisymmetry: swapping the operands negates the result
proof fn lemma_lex_antisym(a: Seq<int>, b: Seq<int>, i: int)
    requires 0 <= i,
    ensures lex_from(a, b, i) == -lex_from(b, a, i),
    decreases a.len() - i,
{
    if i < a.len() && i < b.len() && a[i] == b[i] { lemma_lex_antisym(a, b, i + 1); }
}
pub proof fn lemma_order_machine_antisymmetric(a: Seq<int>, b: Seq<int>)
    ensures cmp_machine(a, b) == -cmp_machine(b, a),
{
    lemma_order_machine_is_lexicographic(a, b);
    lemma_order_machine_is_lexicographic(b, a);
    lemma_lex_antisym(a, b, 0);
}

// transitivity of the lexicographic order on sequences of any lengths
proof fn lemma_lex_trans(a: Seq<int>, b: Seq<int>, c: Seq<int>, i: int)
    requires 0 <= i, lex_from(a, b, i) <= 0, lex_from(b, c, i) <= 0,
    ensures lex_from(a, c, i) <= 0,
            (lex_from(a, b, i) < 0 || lex_from(b, c, i) < 0) ==> lex_from(a, c, i) < 0,
    decreases a.len() - i,
{
    if i < a.len() && i < b.len() && i < c.len() && a[i] == b[i] && b[i] == c[i] { lemma_lex_trans(a, b, c, i + 1); }
}
pub proof fn lemma_order_machine_transitive(a: Seq<int>, b: Seq<int>, c: Seq<int>)
    requires cmp_machine(a, b) <= 0, cmp_machine(b, c) <= 0,
    ensures cmp_machine(a, c) <= 0,
            (cmp_machine(a, b) < 0 || cmp_machine(b, c) < 0) ==> cmp_machine(a, c) < 0,
{
    lemma_order_machine_is_lexicographic(a, b);
    lemma_order_machine_is_lexicographic(b, c);
    lemma_order_machine_is_lexicographic(a, c);
    lemma_lex_trans(a, b, c, 0);
}

// laziness: elements after the deciding position do not influence the result
pub proof fn lemma_later_elements_are_irrelevant(a: Seq<int>, b: Seq<int>, a2: Seq<int>, b2: Seq<int>, d: int)
    requires 0 <= d < a.len(), d < b.len(), a[d] != b[d],
             forall|k: int| 0 <= k < d ==> a[k] == b[k],
             a2.len() > d, b2.len() > d,
             forall|k: int| 0 <= k <= d ==> a2[k] == a[k] && b2[k] == b[k],
    ensures cmp_machine(a2, b2) == cmp_machine(a, b),
{
    lemma_order_machine_is_lexicographic(a, b);
    lemma_order_machine_is_lexicographic(a2, b2);
    lemma_lex_prefix(a, b, a2, b2, d, 0);
}
proof fn lemma_lex_prefix(a: Seq<int>, b: Seq<int>, a2: Seq<int>, b2: Seq<int>, d: int, i: int)
    requires 0 <= i <= d < a.len(), d < b.len(), a[d] != b[d], a2.len() > d, b2.len() > d,
             forall|k: int| i <= k < d ==> a[k] == b[k],
             forall|k: int| 0 <= k <= d ==> a2[k] == a[k] && b2[k] == b[k],
    ensures lex_from(a2, b2, i) == lex_from(a, b, i),
    decreases d - i,
{
    if i < d { lemma_lex_prefix(a, b, a2, b2, d, i + 1); }
}

} // verus!
fn main() {}
